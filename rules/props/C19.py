"""C19 — static-metric accessors address exactly the declared label values (translation validation of expansions, DESIGN §4.C19)."""
import importlib.util
import json
import os
import re
import shutil

from pvrules import extract
from pvrules.mir import is_call, peel, show, strip_generics, subterms
from pvrules.rules import const_int, count_range

LEVEL = "translation_validation"
TECHNIQUE = "translation validation: rule-based comparison of the MIR of proc-macro expansions (generated declarations over the property's grammar) against the generator's own spec; no execution"
EXPLANATION = ("Translation validation of proc-macro expansions: a generator enumerates make_static_metric! / make_auto_flush_static_metric! declarations from the property's grammar "
               "(1-4 labels, 1-4 values, value forms ident / renamed / label_enum / label_enum with renamed values incl. quotes and non-ASCII, all metric types, local and auto-flush "
               "forms) together with a spec computed from the generator's own model; rustc runs the proc-macro of /repo's current static-metric sources and the driver dumps the MIR of "
               "the generated items (nothing is executed). Per declaration: walking from/Inner::from, every field path must create its child with MetricVec::with(name -> value map) "
               "holding exactly {label_i: value along the path} — name-keyed, hence independent of the label order in the backing vector — and `.local()` iff the type is Local* (S1, S2); "
               "try_get maps exactly the declared values to the same fields and anything else to None, with no other exit (S3); get(enum) maps variant k to the field of value k and "
               "get_str to that value (S4); flush flushes every field once (S5); the auto-flush delegator tree mirrors the inner tree with offsets of same-named fields forwarded "
               "positionally, get_local adds each offset once to the root pointer, get_root_metric returns the stored key (S6); the register_static_*_vec! and auto_flush_from! wrappers forward "
               "their arguments in order and wrap exactly the given vector (S7, harness smreg); the auto-flush runtime delegates every update unchanged (S8 = C12.L11). "
               "Bound: the generated declarations (counts in coverage).")
ASSUMPTIONS = ["declarations outside the bounded grammar are not covered", "the run-time validity of the MaybeUninit offset computation (UB-freedom) is not part of the property",
               "rustc's expansion of the harness is the expansion a user gets"]
P = lambda i: ("param", i)  # noqa: E731
VERIF = extract.VERIF


def load_gen():
    p = os.path.join(VERIF, "harness", "smgen", "gen.py")
    spec = importlib.util.spec_from_file_location("smgen_gen", p)
    m = importlib.util.module_from_spec(spec)
    spec.loader.exec_module(m)
    return m


def const_string(t):
    t = peel(t)
    if isinstance(t, tuple) and t and t[0] == "const" and t[1] is not None and t[1].startswith('"'):
        # un-escape Rust debug string
        try:
            return json.loads(t[1])
        except Exception:
            s = t[1][1:-1]
            return s.replace('\\"', '"').replace("\\\\", "\\")
    return None


def struct_fields(f, path):
    a = f.adts.get(path)
    return [x["name"] for x in a["variants"][0]["fields"]] if a else None


def from_body_of(f, call_term):
    n = strip_generics(call_term[1])
    return f.body(n)


def walk_from(f, b, bound, out, path, errs, local_expected):
    """Walk a generated `from`: collect {field path: {label: value}}."""
    r = b.term_local(0)
    if not (r[0] == "agg" and r[1] == "adt"):
        errs.append("%s does not return a struct aggregate" % b.path)
        return
    fields = r[4]
    for fname, t in zip(fields, r[3]):
        if fname in ("last_flush", "flush_millis"):
            continue
        inner = t
        local = False
        if is_call(inner, ["GenericCounter::local", "Histogram::local", "local"]) and inner[2]:
            local = True
            inner = peel(inner[2][0], transparent=[])
        if is_call(inner, ["MetricVec::with"]):
            m = peel(inner[2][0])
            mp = peel(inner[2][1])
            ins = [c for c in b.calls_to("HashMap::insert") if peel(c.args[0]) == mp]
            got = {}
            for c in ins:
                k = const_string(c.args[1])
                v = c.args[2]
                pv = peel(v)
                if pv[0] == "param":
                    val = bound.get(pv[1], "<unbound param %d>" % pv[1])
                else:
                    val = const_string(v)
                if k in got:
                    errs.append("%s.%s: label %r inserted twice" % (b.path, fname, k))
                got[k] = val
            if m != P(b.argc):
                errs.append("%s.%s: child taken from %s instead of the vector argument" % (b.path, fname, show(m)))
            if local != local_expected:
                errs.append("%s.%s: .local() %s" % (b.path, fname, "missing" if local_expected else "unexpected"))
            out[tuple(path + [fname])] = got
        elif inner[0] == "call" and strip_generics(inner[1]).endswith("::from"):
            nb = from_body_of(f, inner)
            if nb is None:
                errs.append("%s.%s: next level %s not found" % (b.path, fname, inner[1]))
                continue
            args = inner[2]
            nb_bound = {}
            ok = True
            # previous labels forwarded positionally, then the constant of this level, then the vector
            k = len(bound)
            for i in range(k):
                if peel(args[i]) != P(i + 1):
                    ok = False
                nb_bound[i + 1] = bound[i + 1]
            val = const_string(args[k]) if len(args) > k else None
            if val is None or len(args) != k + 2 or peel(args[k + 1]) != P(b.argc):
                ok = False
            nb_bound[k + 1] = val
            if not ok:
                errs.append("%s.%s: next level must receive (previous labels in position, this level's constant value, the vector) — found %s" % (b.path, fname, [show(a) for a in args]))
            walk_from(f, nb, nb_bound, out, path + [fname], errs, local_expected)
        elif is_call(inner, ["with_label_values", "MetricVec::with_label_values", "get_metric_with_label_values"]) or any(
                isinstance(s, tuple) and s and s[0] == "call" and is_call(s, ["MetricVec::with_label_values", "MetricVec::get_metric_with_label_values"]) for s in subterms(t)):
            errs.append("%s.%s: child looked up by POSITION (with_label_values) — the declared label names are ignored, so a vector whose label order differs from the declaration is addressed wrongly" % (b.path, fname))
        else:
            errs.append("%s.%s: unrecognised field initialiser %s" % (b.path, fname, show(t)[:160]))


def expected_paths(spec):
    labs = spec["labels"]
    res = {}

    def rec(i, path, vals):
        if i == len(labs):
            res[tuple(path)] = dict(vals)
            return
        for ident, value in labs[i]["values"]:
            rec(i + 1, path + [ident], vals + [(labs[i]["name"], value)])
    rec(0, [], [])
    return res


def level_structs(f, root_from, nlevels):
    """[from body of level 0, level 1, ...] following the first field each time."""
    res = [root_from]
    b = root_from
    for _ in range(nlevels - 1):
        r = b.term_local(0)
        t = r[3][0]
        nb = from_body_of(f, t) if t[0] == "call" else None
        if nb is None:
            break
        res.append(nb)
        b = nb
    return res


def check_try_get(ctx, f, key, b, values):
    """values: [(field ident, value string)] of this level."""
    eqs = [c for c in b.calls() if c.matches(["PartialEq::eq", "str::eq"])]
    got = {}
    false_edges = []
    for c in eqs:
        v = const_string(c.args[1]) if peel(c.args[0]) == P(2) else (const_string(c.args[0]) if peel(c.args[1]) == P(2) else None)
        be = b.branch_on_call(c)
        if v is None or not be or be[0] != c.result_term():
            got["?%d" % c.bb] = None
            continue
        false_edges.append((c.target, be[2]))
        # the true edge assigns Some(&self.F)
        fld = None
        for bi in b.reach(be[1], avoid_blocks=[e[1] for e in false_edges]):
            for st in b.blocks[bi]["stmts"]:
                if st["k"] == "assign" and st["pl"]["l"] == 0 and st["rv"]["k"] == "agg" and st["rv"].get("variant") == "Some":
                    t = peel(b.term_operand(st["rv"]["ops"][0]))
                    if t[0] == "field" and peel(t[1]) == P(1):
                        fld = t[2]
        got[v] = fld
    want = {value: ident for ident, value in values}
    ok = got == want
    ctx.ob("S3", key + "|try_get-table", ok, "try_get must map exactly the declared values to their fields: expected %s, found %s" % (want, got), site=b.raw["span"]["at"])
    # None only when every comparison failed: without the last false edge no `None` assignment is reachable
    none_blocks = [bi for bi in b.reachable_blocks() for st in b.blocks[bi]["stmts"]
                   if st["k"] == "assign" and st["pl"]["l"] == 0 and st["rv"]["k"] == "agg" and st["rv"].get("variant") == "None"]
    if false_edges:
        leak = set(b.reach(0, avoid_edges=[false_edges[-1]])) & set(none_blocks)
        first_dom = all(b.dominates(eqs[0].bb, x) for x in none_blocks) and not any(b.switch_info(bi) or b.bool_edges(bi) for bi in b.reach(0, avoid_blocks=[eqs[0].bb]) if bi != eqs[0].bb and bi in b.reachable_blocks() and eqs[0].bb in b.reach(bi))
        ctx.ob("S3", key + "|try_get-none-only-for-undeclared", not leak and bool(none_blocks) and first_dom,
               "try_get may return None only after every declared value compared unequal (no length pre-checks or other early exits)", site=b.raw["span"]["at"])


def check_get(ctx, f, key, b, enum_path, values):
    adt = f.adts.get(enum_path)
    gs = f.body(enum_path + "::get_str")
    ok = adt is not None and gs is not None
    if not ok:
        ctx.ob("S4", key + "|get", False, "label enum %s or its get_str not found" % enum_path)
        return
    variants = [v["name"] for v in adt["variants"]]

    def arm_table(body, extract_fn):
        for bi in body.reachable_blocks():
            si = body.switch_info(bi)
            if si and si[0][0] == "discr":
                res = {}
                for v, tgt in si[1]:
                    for st in body.blocks[tgt]["stmts"]:
                        if st["k"] == "assign":
                            val = extract_fn(body, st)
                            if val is not None:
                                res[variants[v]] = val
                return res
        # single-variant enums compile to straight-line code
        res = {}
        for bi in body.reachable_blocks():
            for st in body.blocks[bi]["stmts"]:
                if st["k"] == "assign":
                    val = extract_fn(body, st)
                    if val is not None and len(variants) == 1:
                        res[variants[0]] = val
        return res

    def field_ref(body, st):
        t = peel(body.term_rvalue(st["rv"]))
        if t[0] == "field" and peel(t[1]) == P(1):
            return t[2]
        return None

    def str_const(body, st):
        if st["pl"]["l"] != 0 and st["rv"]["k"] != "use":
            return None
        return const_string(body.term_rvalue(st["rv"]))
    tg = arm_table(b, field_ref)
    ts = arm_table(gs, str_const)
    want_f = {ident: ident for ident, value in values}
    want_s = {ident: value for ident, value in values}
    ctx.ob("S4", key + "|get-table", tg == want_f, "get(enum) must map variant k to the field of the same name: expected %s, found %s" % (want_f, tg), site=b.raw["span"]["at"])
    ctx.ob("S4", key + "|get_str-table", ts == want_s, "get_str must map variant k to its declared value: expected %s, found %s" % (want_s, ts), site=gs.raw["span"]["at"])


def check_flush(ctx, f, key, b, fields, leaf):
    calls = [c for c in b.calls() if strip_generics(c.callee).endswith("::flush")]
    got = []
    for c in calls:
        t = peel(c.args[0])
        if t[0] == "field" and peel(t[1]) == P(1):
            got.append(t[2])
    ok = sorted(got) == sorted(fields) and all(count_range(b, [c.bb]) == (1, 1) for c in calls) and len(calls) == len(fields)
    ctx.ob("S5", key + "|flush-all-fields", ok, "flush must flush every field exactly once: fields %s, flushed %s" % (fields, got), site=b.raw["span"]["at"])


def offset_field(t):
    """`&(x.F) as usize - &x as usize` -> (F, base term) else None."""
    t = peel(t, transparent=[])
    if t[0] == "field" and t[1][0] == "binop" and t[1][1] in ("SubWithOverflow", "Sub"):
        a, b_ = t[1][2], t[1][3]
    elif t[0] == "binop" and t[1] == "Sub":
        a, b_ = t[2], t[3]
    else:
        return None
    def strip(x):
        while x[0] == "cast":
            x = x[2]
        if x[0] in ("rawptr", "ref"):
            x = x[1]
        return x
    fa, fb = strip(a), strip(b_)
    if fa[0] == "field" and fa[1] == fb:
        return (fa[2], fb)
    return None


def check_delegators(ctx, f, key, mod, spec, inner_levels):
    """S6: the delegator tree of an auto-flush declaration."""
    name = spec["struct"]
    outer = f.body("%s::%s::from" % (mod, name))
    if outer is None:
        ctx.ob("S6", key + "|outer-from", False, "outer %s::from not found" % name)
        return
    nl = len(spec["labels"])
    r = outer.term_local(0)
    ok = r[0] == "agg"
    if not ok:
        ctx.ob("S6", key + "|outer-from", False, "outer from does not build the struct")
        return

    def walk(b, r, level, known, path):
        """b: a `from`/`new` body building a delegator level; known: number of offsets already known (params after root)."""
        fields = r[4]
        vals = [i for i, v in spec["labels"][level]["values"]]
        inner_struct_fields = None
        for fname, t in zip(fields, r[3]):
            if fname in ("inner",):
                ctx.ob("S6", "%s|%s|root-key" % (key, "/".join(path + [fname])), peel(t) == P(1), "the outer struct must keep the thread-local key it was given")
                continue
            t0 = peel(t, transparent=[])
            if not (t0[0] == "call" and strip_generics(t0[1]).endswith("::new")):
                ctx.ob("S6", "%s|%s|delegator" % (key, "/".join(path + [fname])), False, "field must be built by the next delegator's new(): %s" % show(t)[:120])
                continue
            args = t0[2]
            okf = peel(args[0]) == P(1) and len(args) == known + 2
            for i in range(known):
                okf = okf and peel(args[1 + i]) == P(2 + i)
            off = offset_field(args[-1]) if len(args) >= 2 else None
            okf = okf and off is not None and off[0] == fname
            ctx.ob("S6", "%s|%s|offset-of-same-field" % (key, "/".join(path + [fname])), okf,
                   "delegator field %s must receive (root, known offsets in position, offset of the SAME-named field %s of the inner struct) — found %s" % (fname, fname, [show(a)[:80] for a in args]),
                   site=b.raw["span"]["at"])
            nb = f.body(strip_generics(t0[1]))
            if nb is None:
                continue
            nr = nb.term_local(0)
            if level + 1 < nl:
                if nr[0] == "agg":
                    walk(nb, nr, level + 1, known + 1, path + [fname])
            else:
                # last level: AFLocal*::new(Delegator{root, offset1.., offsetN})
                okl = is_call(nr, ["AFLocalCounter::new", "AFLocalHistogram::new"]) and nr[2][0][0] == "agg" and list(nr[2][0][3]) == [P(i + 1) for i in range(len(nr[2][0][3]))] and len(nr[2][0][3]) == nl + 1
                ctx.ob("S6", "%s|%s|leaf-delegator" % (key, "/".join(path + [fname])), okl, "the leaf delegator must store (root, offset1..offset%d) positionally (found %s)" % (nl, show(nr)[:160]), site=nb.raw["span"]["at"])
        ctx.ob("S6", "%s|%s|fields" % (key, "/".join(path) or "root"), sorted(x for x in fields if x != "inner") == sorted(vals), "delegator level %d must have exactly the declared fields %s (found %s)" % (level, vals, fields))
    walk(outer, r, 0, 0, [])
    # get_local / get_root_metric of the leaf delegator
    gl = [b for b in f.find(re.compile(r"^<%s::%s\d*Delegator as .*>::get_local$" % (re.escape(mod), re.escape(name))))]
    gr = [b for b in f.find(re.compile(r"^<%s::%s\d*Delegator as .*>::get_root_metric$" % (re.escape(mod), re.escape(name))))]
    ok = len(gl) == 1 and len(gr) == 1
    ctx.ob("S6", key + "|leaf-delegator-impl", ok, "one leaf delegator with get_local/get_root_metric expected (found %d/%d)" % (len(gl), len(gr)))
    if ok:
        r = gl[0].term_local(0)
        offs = [s[2] for s in subterms(r) if isinstance(s, tuple) and len(s) == 3 and s[0] == "field" and s[1] in (("deref", P(1)),) and str(s[2]).startswith("offset")]
        roots = [s for s in subterms(r) if s == P(2)]
        adds = [s for s in subterms(r) if isinstance(s, tuple) and s and s[0] == "binop" and s[1] in ("AddWithOverflow", "Add")]
        okg = sorted(offs) == ["offset%d" % (i + 1) for i in range(nl)] and len(roots) == 1 and len(adds) == nl
        ctx.ob("S6", key + "|get_local", okg, "get_local must add offset1..offset%d, each exactly once, to the root metric pointer (found offsets %s, %d additions)" % (nl, offs, len(adds)), site=gl[0].raw["span"]["at"])
        rr = peel(gr[0].term_local(0))
        ctx.ob("S6", key + "|get_root_metric", rr == ("field", ("deref", P(1)), "root"), "get_root_metric must return the stored key", site=gr[0].raw["span"]["at"])


def check_decl(ctx, f, spec):
    mod_prefix = "%s::%s" % (f.crate, spec["module"])
    scope = None
    name = spec["struct"]
    af = spec["macro"] == "make_auto_flush_static_metric"
    root_name = name + "Inner" if af else name
    cands = [b for b in f.find(re.compile(r"^%s::prometheus_static_scope_\d+::%s::from$" % (re.escape(mod_prefix), re.escape(root_name))))]
    key = spec["module"]
    if len(cands) != 1:
        ctx.ob("S1", key + "|root-from", False, "generated %s::from not found in module %s" % (root_name, spec["module"]))
        return False
    root = cands[0]
    mod = root.path.rsplit("::", 2)[0]
    ctx.saw(root)
    local_expected = spec["type"].startswith("Local")
    out, errs = {}, []
    walk_from(f, root, {}, out, [], errs, local_expected)
    want = expected_paths(spec)
    ok = not errs and out == want
    detail = None
    if not ok:
        diffs = []
        for p in sorted(set(out) | set(want)):
            if out.get(p) != want.get(p):
                diffs.append("%s: expected %s, found %s" % (".".join(p), want.get(p), out.get(p)))
        detail = "; ".join(errs[:4] + diffs[:4])
    ctx.ob("S1", key + "|children", ok,
           "%s %s over %s: every field path must address exactly the child whose label values are those declared along the path, by label NAME%s" % (
               spec["macro"], spec["type"], [l["name"] for l in spec["labels"]], (" — " + detail) if detail else ""), site=root.raw["span"]["at"])
    # per-level accessors
    levels = level_structs(f, root, len(spec["labels"]))
    for li, lb in enumerate(levels):
        sname = lb.path.rsplit("::", 1)[0]
        values = spec["labels"][li]["values"]
        if not af:
            tg = f.body(sname + "::try_get")
            if tg is None:
                ctx.ob("S3", "%s|L%d|try_get" % (key, li), False, "try_get missing on %s" % sname)
            else:
                ctx.saw(tg)
                check_try_get(ctx, f, "%s|L%d" % (key, li), tg, values)
        acc_struct = sname
        if af:
            # get() lives on the outer struct / delegators
            acc_struct = sname.replace("Inner", "") if li == 0 else sname.replace("Inner", "Delegator")
            # level li's accessor struct: outer for 0, <name><li+1 ... >Delegator for inner levels: name pattern  M, M2Delegator? resolved below
        if spec["labels"][li]["enum"]:
            en = "%s::%s" % (mod_prefix, spec["labels"][li]["enum"])
            g = None
            if not af:
                g = f.body(sname + "::get")
            else:
                base = sname.rsplit("::", 1)[0]
                short = sname.rsplit("::", 1)[1].replace("Inner", "")
                g = f.body("%s::%s::get" % (base, short if li == 0 else None)) if li == 0 else None
                if li > 0:
                    # delegator of the previous level holds the fields of this level
                    prev = levels[li - 1].path.rsplit("::", 1)[0].rsplit("::", 1)[1].replace("Inner", "Delegator")
                    g = f.body("%s::%s::get" % (base, prev))
            if g is None:
                ctx.ob("S4", "%s|L%d|get" % (key, li), False, "get(enum) missing for label %d" % li)
            else:
                ctx.saw(g)
                check_get(ctx, f, "%s|L%d" % (key, li), g, en, values)
        if local_expected:
            fl = f.body(sname + "::flush")
            if fl is None:
                ctx.ob("S5", "%s|L%d|flush" % (key, li), False, "flush missing on %s" % sname)
            else:
                ctx.saw(fl)
                check_flush(ctx, f, "%s|L%d" % (key, li), fl, [i for i, v in values], li == len(levels) - 1)
    if af:
        check_delegators(ctx, f, key, mod, spec, levels)
    return ok


def prepare_harness(tier, seed):
    gen = load_gen()
    if tier == "quick":
        # the committed quick harness must be what the generator produces
        src, specs = gen.generate("quick", 0)
        return None, src, specs
    d = os.path.join(extract.BUILD, "hsrc", "smgen-thorough-%d" % os.getpid())
    shutil.rmtree(d, ignore_errors=True)
    os.makedirs(os.path.join(d, "src"))
    shutil.copy(os.path.join(VERIF, "harness", "smgen", "Cargo.toml"), d)
    src, specs = gen.generate("thorough", seed)
    open(os.path.join(d, "src", "lib.rs"), "w").write(src)
    return d, src, specs


REG_FORMS = {
    # harness fn: (opts constructor, builder type fragment of the vector, static struct, has buckets)
    "r_counter": ("Opts::new", "CounterVecBuilder<prometheus::core::AtomicF64>", "SC", False),
    "r_int_counter": ("Opts::new", "CounterVecBuilder<prometheus::core::AtomicU64>", "SIC", False),
    "r_gauge": ("Opts::new", "GaugeVecBuilder<prometheus::core::AtomicF64>", "SG", False),
    "r_int_gauge": ("Opts::new", "GaugeVecBuilder<prometheus::core::AtomicI64>", "SIG", False),
    "r_histogram": ("HistogramOpts::new", "HistogramVecBuilder", "SH", False),
    "r_histogram_buckets": ("HistogramOpts::new", "HistogramVecBuilder", "SH", True),
}
AF_FORMS = {
    # harness fn: (delegator struct, inner struct, source static, has duration)
    "af_counter": ("AC", "ACInner", "smreg::CVEC", False),
    "af_counter_dur": ("AC", "ACInner", "smreg::CVEC", True),
    "af_histogram": ("AH", "AHInner", "smreg::HVEC", False),
    "af_histogram_dur": ("AH", "AHInner", "smreg::HVEC", True),
}


def rule_S7(ctx):
    rid = "S7"
    ctx.rule(rid, "register_static_<kind>_vec!(S, name, help, labels[, buckets]) expands to register_<kind>_vec! of the same kind with the arguments forwarded in order "
                  "(name, help into the Opts constructor; labels into the vector constructor; buckets into HistogramOpts::buckets), registers a clone of that vector and maps "
                  "the result through S::from(&vec); auto_flush_from!(VEC, C[, d]) initialises the thread-local inner struct with CInner::from(&VEC), applies "
                  "with_flush_duration(d.into()) exactly when a duration is given, and returns C::from(&INNER)")
    try:
        f = ctx.harness("smreg")[("smreg", "lib")]
    except extract.ExtractError as e:
        ctx.ob(rid, "harness-expands", False, "the register_static_*_vec! / auto_flush_from! invocations no longer expand/type-check against /repo's static-metric: %s"
               % " | ".join([l for l in str(e).splitlines() if l.startswith("error")][:4]), detail=str(e)[-1500:])
        return
    n = 0
    for fn, (octor, builder, st, has_b) in sorted(REG_FORMS.items()):
        b = ctx.anchor(rid, fn, f.body("smreg::" + fn))
        if not b:
            continue
        ctx.saw(b)
        n += 1
        oc = b.calls_to(octor)
        ok = len(oc) == 1 and [peel(a) for a in oc[0].args] == [P(1), P(2)]
        ctx.ob(rid, fn + "|name-help", ok, "%s must receive the macro's 2nd and 3rd arguments (name, help) in this order (found %s)" % (octor, [show(a) for c in oc for a in c.args]), site=b.raw["span"]["at"])
        vc_ = [c for c in b.calls() if c.callee_args.endswith(">::new") and "MetricVec<" in c.callee_args and builder in c.callee_args and "Box" not in c.callee_args and "Result" not in c.callee_args]
        ok = len(vc_) == 1 and peel(vc_[0].args[1]) == P(3) and bool(oc) and oc[0].result_term() in list(subterms(vc_[0].args[0]))
        ctx.ob(rid, fn + "|vector", ok, "the vector must be created once, as MetricVec<%s>, from these options and the macro's label argument" % builder, site=b.raw["span"]["at"])
        bk = b.calls_to("HistogramOpts::buckets")
        if has_b:
            okb = len(bk) == 1 and peel(bk[0].args[1]) == P(4) and bool(vc_) and bk[0].result_term() in list(subterms(vc_[0].args[0]))
        else:
            okb = not bk
        ctx.ob(rid, fn + "|buckets", okb, "buckets are forwarded exactly when given", site=b.raw["span"]["at"])
        rg = b.calls_to("prometheus::register")
        if not rg:
            # the same registration spelled `default_registry().register(..)` (what prometheus::register itself does, C20.F3)
            rg = [c_ for c_ in b.calls_to("Registry::register") if is_call(peel(c_.args[0], transparent=["Deref::deref"]), ["prometheus::default_registry", "registry::default_registry", "default_registry"])]
        ok = len(rg) == 1 and bool(vc_) and vc_[0].result_term() in list(subterms(rg[0].args[-1])) and count_range(b, [rg[0].bb]) == (1, 1)
        ctx.ob(rid, fn + "|registers", ok, "the created vector (a clone of it) must be registered exactly once", site=b.raw["span"]["at"])
        # the Ok payload is S::from(&m) with m the registered vector: either registered.map(|m| S::from(&m)) or the same written out in the body
        okm = False
        ret = b.term_local(0)
        cl = f.body("smreg::%s::{closure#0}" % fn)
        if is_call(ret, "Result::map") and rg and rg[0].result_term() in list(subterms(ret[2][0])) and cl is not None:
            ctx.saw(cl)
            fc = [c for c in cl.calls()]
            okm = len(fc) == 1 and strip_generics(fc[0].callee).endswith("::%s::from" % st) and peel(fc[0].args[0]) == P(2) and cl.term_local(0) == fc[0].result_term()
        else:
            from pvrules.rules import ok_payloads
            fc = [c for c in b.calls() if strip_generics(c.callee).endswith("::%s::from" % st)]
            pl = ok_payloads(b)
            okm = len(fc) == 1 and bool(vc_) and vc_[0].result_term() in list(subterms(fc[0].args[0])) and bool(rg) and b.dominates(rg[0].bb, fc[0].bb) \
                and bool(pl) and all(peel(t) == fc[0].result_term() for t in pl)
        ctx.ob(rid, fn + "|maps-through-from", okm, "the result must be registered.map(|m| %s::from(&m))" % st, site=b.raw["span"]["at"])
    for fn, (deleg, inner, src, has_d) in sorted(AF_FORMS.items()):
        b = ctx.anchor(rid, fn, f.body("smreg::" + fn))
        ini = ctx.anchor(rid, fn + "::INNER", f.body("smreg::%s::INNER::__rust_std_internal_init_fn" % fn))
        if not b or not ini:
            continue
        ctx.saw(b)
        ctx.saw(ini)
        n += 1
        cs = b.calls()
        ok = len(cs) == 1 and strip_generics(cs[0].callee).endswith("::%s::from" % deleg) and b.term_local(0) == cs[0].result_term()
        ctx.ob(rid, fn + "|returns-from-inner", ok, "auto_flush_from! must return %s::from(&INNER)" % deleg, site=b.raw["span"]["at"])
        fr = [c for c in ini.calls() if strip_generics(c.callee).endswith("::%s::from" % inner)]
        ok = len(fr) == 1 and is_call(peel(fr[0].args[0], transparent=[]), "Deref::deref") and src in show(fr[0].args[0])
        ctx.ob(rid, fn + "|inner-from-source", ok, "INNER must be %s::from(&%s)" % (inner, src), site=ini.raw["span"]["at"])
        wd = [c for c in ini.calls() if strip_generics(c.callee).endswith("::with_flush_duration")]
        ret = ini.term_local(0)
        if has_d:
            ok = len(wd) == 1 and bool(fr) and peel(wd[0].args[0], transparent=[]) == fr[0].result_term() and ret == wd[0].result_term()
            if ok:
                d = peel(wd[0].args[1], transparent=["Into::into"])
                ok = isinstance(d, tuple) and d and d[0] == "constdef" and d[1] == "smreg::FLUSH"
        else:
            ok = not wd and bool(fr) and ret == fr[0].result_term()
        ctx.ob(rid, fn + "|flush-duration", ok, "with_flush_duration(d.into()) is applied to the inner struct exactly when a duration is given, with that duration", site=ini.raw["span"]["at"])
    ctx.floor(rid, "register_static_*_vec! / auto_flush_from! invocations validated", n, 10)


def run(ctx):
    ctx.rule("S1", "leaves and inner levels: walking the generated from(): every field F is initialised from the next level's from(previous labels in position, const value_F, m) and at the "
                   "last level from MetricVec::with(m, &map) where map received exactly {const label_i: forwarded label_i} for i < last and {label_last: const value_F}; `.local()` iff Local*")
    ctx.rule("S3", "try_get: the string-equality chain maps each declared value to Some(&self.F) of the same-valued field and falls through to None only after all comparisons failed")
    ctx.rule("S4", "get: enum discriminant k |-> &self.F_k, get_str: variant k |-> declared value_k")
    ctx.rule("S5", "flush calls flush on every field exactly once (local and auto-flush inner structs)")
    ctx.rule("S6", "auto-flush offsets: every delegator field F receives the offset of the same-named field F of the inner struct of that level, known offsets are forwarded positionally, "
                   "get_local adds offset1..offsetN each exactly once to the root pointer, get_root_metric returns the stored root")
    seed = int(os.environ.get("VERIF_SEED", "0") or 0)
    hdir, src, specs = prepare_harness(ctx.tier, seed)
    fr = ctx.facts("default")   # /repo itself must build
    # the runtime half of the auto-flush variant (src/auto_flush.rs): every update made through a generated accessor reaches the local metric and is flushed
    from . import C06, C12
    ctx.rule("S8", "auto-flush runtime (shared with C12.L11): AFLocalCounter / AFLocalHistogram delegate every update unchanged to the wrapped local metric and flush it "
                   "(may_flush / flush), so that what a generated auto-flush accessor receives is delivered to the addressed child")
    ctx.run_rule("S8", lambda c: C06._as(c, "S8", lambda s_: C12.rule_auto_flush(s_, fr, "L11")))
    ctx.run_rule("S7", rule_S7)
    from . import vec_common as _vc
    ctx.rule("S9", "the child `from()` binds a field to is the vector's child for those label values (shared with C10.R2: get_or_create_metric re-checks, builds and inserts under "
                   "one write guard and returns the child that is in the map)")
    ctx.run_rule("S9", lambda c: C06._as(c, "S9", lambda s_: _vc.rule_double_checked_creation(s_, fr, "R2")))
    try:
        if hdir is None:
            lib = os.path.join(VERIF, "harness", "smgen", "src", "lib.rs")
            ctx.ob("S0", "harness-in-sync", open(lib).read() == src, "harness/smgen/src/lib.rs must be what gen.py generates for the quick tier")
            facts = ctx.harness("smgen")[("smgen", "lib")]
        else:
            facts = ctx.harness("smgen", hdir=hdir, target_suffix="")[("smgen", "lib")]
    except extract.ExtractError as e:
        msg = str(e)
        errs = [l for l in msg.splitlines() if l.startswith("error")][:4]
        ctx.ob("S1", "harness-expands", False, "declarations of the property's grammar no longer expand/type-check against /repo's static-metric although /repo itself builds: %s" % " | ".join(errs), detail=msg[-1500:])
        return
    finally:
        if hdir:
            shutil.rmtree(hdir, ignore_errors=True)
    n_ok = 0
    for sp in specs:
        r = ctx.run_rule("S1", lambda c, s=sp: check_decl(c, facts, s))
        if r:
            n_ok += 1
    ctx.extra["programs"] = len(specs)
    ctx.extra["disagreements_checked"] = len(specs)
    ctx.extra["declarations_agreeing"] = n_ok
    ctx.extra["grammar"] = {"labels": sorted({len(s["labels"]) for s in specs}), "types": sorted({s["type"] for s in specs}), "macros": sorted({s["macro"] for s in specs}),
                            "leaves_total": sum(len(expected_paths(s)) for s in specs)}
    ctx.floor("S1", "declarations validated", len(specs), 40)
