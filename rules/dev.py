"""Developer helper (not used by checks): cache facts and pretty-print bodies.
   python3 rules/dev.py dump [config]            refresh cache
   python3 rules/dev.py show <config> <pattern>  print bodies with terms of calls"""
import json, os, sys, pickle
sys.path.insert(0, os.path.dirname(os.path.abspath(__file__)))
from pvrules import extract
from pvrules.mir import Facts, show, strip_generics

CACHE = os.path.join(extract.BUILD, "dev")

def load(config="default", refresh=False):
    os.makedirs(CACHE, exist_ok=True)
    p = os.path.join(CACHE, config + ".json")
    if refresh or not os.path.exists(p):
        raw, info = extract.extract_repo(config)
        json.dump(raw, open(p, "w"))
    return Facts(json.load(open(p)))

def pplace(pl):
    s = "_%d" % pl["l"]
    for p in pl["p"]:
        if p[0] == "deref": s = "(*%s)" % s
        elif p[0] == "field": s = "%s.%s" % (s, p[2])
        elif p[0] == "index": s = "%s[_%d]" % (s, p[1])
        elif p[0] == "downcast": s = "(%s as %s)" % (s, p[2])
        else: s = "%s.%s" % (s, p)
    return s

def pop(o):
    if o["k"] in ("copy", "move"): return o["k"] + " " + pplace(o["pl"])
    if o["k"] == "const": return "const " + (strip_generics(o.get("fn") or "") or str(o.get("val")))
    return str(o)

def prv(rv):
    k = rv["k"]
    if k == "use": return pop(rv["ops"][0])
    if k in ("ref", "rawptr"): return "&%s %s" % (rv["bk"], pplace(rv["pl"]))
    if k == "binop": return "%s(%s, %s)" % (rv["op"], pop(rv["ops"][0]), pop(rv["ops"][1]))
    if k == "unop": return "%s(%s)" % (rv["op"], pop(rv["ops"][0]))
    if k == "cast": return "%s as %s [%s]" % (pop(rv["ops"][0]), rv["ty"], rv["cast"])
    if k == "discr": return "discr(%s)" % pplace(rv["pl"])
    if k == "agg": return "%s %s{%s}" % (rv["agg"], rv.get("adt", rv.get("def", "")) + ("::" + rv["variant"] if "variant" in rv else ""), ", ".join(pop(o) for o in rv["ops"]))
    return str(rv)

def pbody(b, cleanup=False):
    print("fn %s  [%s] vis=%s" % (b.path, b.raw["span"]["at"], b.raw.get("vis")))
    for i, l in enumerate(b.locals):
        if l.get("name") or i <= b.argc:
            print("   let _%d: %s  // %s" % (i, l["ty"], l.get("name")))
    for d in b.raw["dbg"]:
        print("   dbg", d["name"], pplace(d["pl"]) if "pl" in d else d.get("const"))
    reach = b.reachable_blocks()
    for bi, bb in enumerate(b.blocks):
        if bb.get("cleanup") and not cleanup: continue
        print("  bb%d%s:" % (bi, "" if bi in reach else " (unreachable)"))
        for st in bb["stmts"]:
            if st["k"] == "assign":
                print("     %s = %s   %s" % (pplace(st["pl"]), prv(st["rv"]), "[exp]" if st["sp"].get("exp") else ""))
            else:
                print("     ", st)
        t = bb["term"]
        k = t["k"]
        if k == "call":
            print("     %s = %s(%s) -> %s   @%s%s" % (pplace(t["dest"]), strip_generics(t.get("callee_args", "?")), ", ".join(pop(a) for a in t["args"]), t.get("target"), t["fnsp"]["at"], " [exp]" if t["fnsp"].get("exp") else ""))
            if t.get("res") and t.get("res") != t.get("callee"):
                print("          res=%s" % t["res"])
        elif k == "switch":
            print("     switch %s [%s] -> %s otherwise %s" % (pop(t["discr"]), t["dty"], t["arms"], t["otherwise"]))
        elif k == "drop":
            print("     drop(%s) -> %s" % (pplace(t["pl"]), t["target"]))
        elif k == "assert":
            print("     assert(%s == %s, %s) -> %s" % (pop(t["cond"]), t["expected"], t["msg"], t["target"]))
        else:
            print("     %s %s" % (k, t.get("target", "")))

if __name__ == "__main__":
    cmd = sys.argv[1]
    if cmd == "dump":
        for c in sys.argv[2:] or ["default"]:
            f = load(c, refresh=True); print(c, len(f.bodies))
    elif cmd == "show":
        f = load(sys.argv[2])
        for b in f.find(sys.argv[3]):
            pbody(b, cleanup="--cleanup" in sys.argv)
            if "--terms" in sys.argv:
                for c in b.calls():
                    print("   CALL", c, [show(a) for a in c.args])
            print()
    elif cmd == "list":
        f = load(sys.argv[2])
        import re
        for k in f.order:
            if len(sys.argv) < 4 or re.search(sys.argv[3], k): print(k)
