// mirfacts: a rustc_private driver that dumps the MIR of the local crate (plus item tables) as one
// JSON file per crate.  It never evaluates library code; it only pretty-prints what rustc built.
//
// Usage (as RUSTC_WRAPPER or RUSTC_WORKSPACE_WRAPPER):  mirfacts <rustc> <rustc args...>
// Environment:
//   MIRFACTS_OUT     directory for <crate>-<kind>.json (facts are only written when set)
//   MIRFACTS_CRATES  comma separated crate names to analyse (others are compiled normally)
//   MIRFACTS_NONCE   copied into the fact file (freshness check by the caller)
#![feature(rustc_private)]

extern crate rustc_abi;
extern crate rustc_driver;
extern crate rustc_hir;
extern crate rustc_interface;
extern crate rustc_middle;
extern crate rustc_session;
extern crate rustc_span;

use rustc_driver::{Callbacks, Compilation};
use rustc_hir::def::DefKind;
use rustc_hir::def_id::{DefId, LocalDefId};
use rustc_middle::mir::{
    self, AggregateKind, BasicBlockData, Body, Operand, Place, ProjectionElem, Rvalue,
    StatementKind, TerminatorKind,
};
use rustc_middle::ty::print::{with_crate_prefix, with_no_trimmed_paths};
use rustc_middle::ty::{self, Instance, Ty, TyCtxt, TypeVisitableExt, TypingEnv};
use rustc_span::Span;
use std::fmt::Write as _;

fn esc(s: &str, out: &mut String) {
    out.push('"');
    for c in s.chars() {
        match c {
            '"' => out.push_str("\\\""),
            '\\' => out.push_str("\\\\"),
            '\n' => out.push_str("\\n"),
            '\r' => out.push_str("\\r"),
            '\t' => out.push_str("\\t"),
            c if (c as u32) < 0x20 => {
                let _ = write!(out, "\\u{:04x}", c as u32);
            }
            c => out.push(c),
        }
    }
    out.push('"');
}

fn js(s: &str) -> String {
    let mut o = String::new();
    esc(s, &mut o);
    o
}

struct Cx<'tcx> {
    tcx: TyCtxt<'tcx>,
}

impl<'tcx> Cx<'tcx> {
    fn path(&self, did: DefId) -> String {
        with_no_trimmed_paths!(self.tcx.def_path_str(did))
    }
    fn path_args(&self, did: DefId, args: ty::GenericArgsRef<'tcx>) -> String {
        with_no_trimmed_paths!(self.tcx.def_path_str_with_args(did, args))
    }
    fn ty(&self, t: Ty<'tcx>) -> String {
        with_no_trimmed_paths!(format!("{}", t))
    }
    fn span(&self, sp: Span) -> String {
        let sm = self.tcx.sess.source_map();
        let lo = sm.lookup_char_pos(sp.lo());
        format!("{}:{}:{}", lo.file.name.prefer_local_unconditionally(), lo.line, lo.col.0 + 1)
    }
    // span of the outermost macro call site (where the user wrote it)
    fn span_json(&self, sp: Span) -> String {
        let mut s = String::from("{");
        let _ = write!(s, "\"at\":{}", js(&self.span(sp)));
        if sp.from_expansion() {
            let cs = sp.source_callsite();
            let _ = write!(s, ",\"exp\":true,\"callsite\":{}", js(&self.span(cs)));
            let ed = sp.ctxt().outer_expn_data();
            let _ = write!(s, ",\"macro\":{}", js(&format!("{:?}", ed.kind)));
            // the whole chain of expansions, innermost first (debug_assert! expands through assert!)
            let chain: Vec<String> = sp.macro_backtrace().map(|e| js(&format!("{:?}", e.kind))).collect();
            let _ = write!(s, ",\"macros\":[{}]", chain.join(","));
        }
        s.push('}');
        s
    }

    fn place(&self, body: &Body<'tcx>, p: &Place<'tcx>) -> String {
        let mut s = String::new();
        let _ = write!(s, "{{\"l\":{},\"p\":[", p.local.as_usize());
        let mut pty = mir::PlaceTy::from_ty(body.local_decls[p.local].ty);
        for (i, elem) in p.projection.iter().enumerate() {
            if i > 0 {
                s.push(',');
            }
            match elem {
                ProjectionElem::Deref => s.push_str("[\"deref\"]"),
                ProjectionElem::Field(f, _) => {
                    let name = self.field_name(pty, f.as_usize());
                    let _ = write!(s, "[\"field\",{},{}]", f.as_usize(), js(&name));
                }
                ProjectionElem::Index(l) => {
                    let _ = write!(s, "[\"index\",{}]", l.as_usize());
                }
                ProjectionElem::ConstantIndex { offset, min_length, from_end } => {
                    let _ = write!(s, "[\"cindex\",{},{},{}]", offset, min_length, from_end);
                }
                ProjectionElem::Subslice { from, to, from_end } => {
                    let _ = write!(s, "[\"subslice\",{},{},{}]", from, to, from_end);
                }
                ProjectionElem::Downcast(sym, v) => {
                    let n = sym.map(|x| x.to_string()).unwrap_or_default();
                    let _ = write!(s, "[\"downcast\",{},{}]", v.as_usize(), js(&n));
                }
                ProjectionElem::OpaqueCast(_) => s.push_str("[\"opaque\"]"),
                ProjectionElem::UnwrapUnsafeBinder(_) => s.push_str("[\"unbinder\"]"),
            }
            pty = pty.projection_ty(self.tcx, elem);
        }
        s.push_str("]}");
        s
    }

    fn field_name(&self, pty: mir::PlaceTy<'tcx>, idx: usize) -> String {
        match pty.ty.kind() {
            ty::Adt(adt, _) => {
                let v = match pty.variant_index {
                    Some(v) => adt.variant(v),
                    None => {
                        if adt.is_enum() {
                            return idx.to_string();
                        }
                        adt.non_enum_variant()
                    }
                };
                v.fields
                    .iter()
                    .nth(idx)
                    .map(|f| f.name.to_string())
                    .unwrap_or_else(|| idx.to_string())
            }
            _ => idx.to_string(),
        }
    }

    fn constant(&self, c: &mir::ConstOperand<'tcx>) -> String {
        let ty = c.const_.ty();
        let mut s = String::from("{\"k\":\"const\"");
        let _ = write!(s, ",\"ty\":{}", js(&self.ty(ty)));
        match ty.kind() {
            ty::FnDef(did, args) => {
                let _ = write!(s, ",\"fn\":{}", js(&self.path(*did)));
                let _ = write!(s, ",\"fnargs\":{}", js(&self.path_args(*did, args)));
            }
            _ => {
                let v = with_no_trimmed_paths!(format!("{}", c.const_));
                let _ = write!(s, ",\"val\":{}", js(&v));
                // scalar value when it is one
                let env = TypingEnv::fully_monomorphized();
                // a constant that still mentions a type parameter (e.g. <T as SizedTypeProperties>::ALIGN) cannot be evaluated here
                if (ty.is_integral() || ty.is_bool() || ty.is_char() || ty.is_floating_point()) && !c.const_.has_non_region_param() {
                    if let Some(si) = c.const_.try_eval_scalar_int(self.tcx, env) {
                        let bits = si.to_bits_unchecked();
                        let _ = write!(s, ",\"bits\":\"{}\"", bits);
                        if ty.is_signed() {
                            let size = si.size();
                            let v = si.to_int(size);
                            let _ = write!(s, ",\"int\":\"{}\"", v);
                        }
                        if let ty::Float(ft) = ty.kind() {
                            match ft {
                                ty::FloatTy::F64 => {
                                    let f = f64::from_bits(bits as u64);
                                    let _ = write!(s, ",\"f\":{}", js(&format!("{:?}", f)));
                                }
                                ty::FloatTy::F32 => {
                                    let f = f32::from_bits(bits as u32);
                                    let _ = write!(s, ",\"f\":{}", js(&format!("{:?}", f)));
                                }
                                _ => {}
                            }
                        }
                    }
                }
                // `&STATIC`: the address of a static item (MIR only shows an allocation id)
                if let Some(sd) = c.check_static_ptr(self.tcx) {
                    let _ = write!(s, ",\"static\":{}", js(&self.path(sd)));
                }
                if let mir::Const::Unevaluated(u, _) = c.const_ {
                    let _ = write!(s, ",\"def\":{}", js(&self.path(u.def)));
                    if u.promoted.is_some() {
                        let _ = write!(s, ",\"promoted\":{}", u.promoted.unwrap().as_usize());
                    }
                }
            }
        }
        s.push('}');
        s
    }

    fn operand(&self, body: &Body<'tcx>, o: &Operand<'tcx>) -> String {
        match o {
            Operand::Copy(p) => format!("{{\"k\":\"copy\",\"pl\":{}}}", self.place(body, p)),
            Operand::Move(p) => format!("{{\"k\":\"move\",\"pl\":{}}}", self.place(body, p)),
            Operand::Constant(c) => self.constant(c),
            other => format!("{{\"k\":\"other\",\"dbg\":{}}}", js(&format!("{:?}", other))),
        }
    }

    fn rvalue(&self, body: &Body<'tcx>, rv: &Rvalue<'tcx>) -> String {
        let mut s = String::from("{");
        match rv {
            Rvalue::Use(op, _) => {
                let _ = write!(s, "\"k\":\"use\",\"ops\":[{}]", self.operand(body, op));
            }
            Rvalue::Repeat(op, n) => {
                let _ = write!(
                    s,
                    "\"k\":\"repeat\",\"ops\":[{}],\"n\":{}",
                    self.operand(body, op),
                    js(&format!("{}", n))
                );
            }
            Rvalue::Ref(_, bk, p) => {
                let m = match bk {
                    mir::BorrowKind::Shared => "shared",
                    mir::BorrowKind::Fake(_) => "fake",
                    mir::BorrowKind::Mut { .. } => "mut",
                };
                let _ = write!(s, "\"k\":\"ref\",\"bk\":\"{}\",\"pl\":{}", m, self.place(body, p));
            }
            Rvalue::ThreadLocalRef(d) => {
                let _ = write!(s, "\"k\":\"tlref\",\"def\":{}", js(&self.path(*d)));
            }
            Rvalue::RawPtr(k, p) => {
                let _ = write!(
                    s,
                    "\"k\":\"rawptr\",\"bk\":{},\"pl\":{}",
                    js(&format!("{:?}", k)),
                    self.place(body, p)
                );
            }
            Rvalue::Cast(k, op, t) => {
                let _ = write!(
                    s,
                    "\"k\":\"cast\",\"cast\":{},\"ops\":[{}],\"ty\":{}",
                    js(&format!("{:?}", k)),
                    self.operand(body, op),
                    js(&self.ty(*t))
                );
            }
            Rvalue::BinaryOp(op, ab) => {
                let _ = write!(
                    s,
                    "\"k\":\"binop\",\"op\":\"{:?}\",\"ops\":[{},{}]",
                    op,
                    self.operand(body, &ab.0),
                    self.operand(body, &ab.1)
                );
            }
            Rvalue::UnaryOp(op, a) => {
                let _ = write!(
                    s,
                    "\"k\":\"unop\",\"op\":\"{:?}\",\"ops\":[{}]",
                    op,
                    self.operand(body, a)
                );
            }
            Rvalue::Discriminant(p) => {
                let _ = write!(s, "\"k\":\"discr\",\"pl\":{}", self.place(body, p));
            }
            Rvalue::Aggregate(kind, ops) => {
                let opss: Vec<String> = ops.iter().map(|o| self.operand(body, o)).collect();
                let _ = write!(s, "\"k\":\"agg\",\"ops\":[{}]", opss.join(","));
                match &**kind {
                    AggregateKind::Array(t) => {
                        let _ = write!(s, ",\"agg\":\"array\",\"ty\":{}", js(&self.ty(*t)));
                    }
                    AggregateKind::Tuple => s.push_str(",\"agg\":\"tuple\""),
                    AggregateKind::Adt(did, vidx, args, _, active) => {
                        let adt = self.tcx.adt_def(*did);
                        let v = adt.variant(*vidx);
                        let fields: Vec<String> =
                            v.fields.iter().map(|f| js(&f.name.to_string())).collect();
                        let _ = write!(
                            s,
                            ",\"agg\":\"adt\",\"adt\":{},\"adtargs\":{},\"variant\":{},\"vidx\":{},\"fields\":[{}]",
                            js(&self.path(*did)),
                            js(&self.path_args(*did, args)),
                            js(&v.name.to_string()),
                            vidx.as_usize(),
                            fields.join(",")
                        );
                        if let Some(a) = active {
                            let _ = write!(s, ",\"active\":{}", a.as_usize());
                        }
                    }
                    AggregateKind::Closure(did, _) => {
                        let _ = write!(s, ",\"agg\":\"closure\",\"def\":{}", js(&self.path(*did)));
                    }
                    AggregateKind::Coroutine(did, _) | AggregateKind::CoroutineClosure(did, _) => {
                        let _ =
                            write!(s, ",\"agg\":\"coroutine\",\"def\":{}", js(&self.path(*did)));
                    }
                    AggregateKind::RawPtr(t, _) => {
                        let _ = write!(s, ",\"agg\":\"rawptr\",\"ty\":{}", js(&self.ty(*t)));
                    }
                }
            }
            Rvalue::CopyForDeref(p) => {
                let _ = write!(
                    s,
                    "\"k\":\"use\",\"cfd\":true,\"ops\":[{{\"k\":\"copy\",\"pl\":{}}}]",
                    self.place(body, p)
                );
            }
            other => {
                let _ = write!(s, "\"k\":\"other\",\"dbg\":{}", js(&format!("{:?}", other)));
            }
        }
        s.push('}');
        s
    }

    fn block(&self, def: LocalDefId, body: &Body<'tcx>, bb: &BasicBlockData<'tcx>) -> String {
        let mut s = String::from("{");
        if bb.is_cleanup {
            s.push_str("\"cleanup\":true,");
        }
        s.push_str("\"stmts\":[");
        let mut first = true;
        for st in &bb.statements {
            let item = match &st.kind {
                StatementKind::Assign(b) => {
                    let (p, rv) = &**b;
                    Some(format!(
                        "{{\"k\":\"assign\",\"pl\":{},\"rv\":{},\"sp\":{}}}",
                        self.place(body, p),
                        self.rvalue(body, rv),
                        self.span_json(st.source_info.span)
                    ))
                }
                StatementKind::SetDiscriminant { place, variant_index } => Some(format!(
                    "{{\"k\":\"setdiscr\",\"pl\":{},\"vidx\":{}}}",
                    self.place(body, place),
                    variant_index.as_usize()
                )),
                StatementKind::Intrinsic(i) => {
                    Some(format!("{{\"k\":\"intrinsic\",\"dbg\":{}}}", js(&format!("{:?}", i))))
                }
                _ => None,
            };
            if let Some(it) = item {
                if !first {
                    s.push(',');
                }
                first = false;
                s.push_str(&it);
            }
        }
        s.push_str("],\"term\":");
        let term = bb.terminator();
        let mut t = String::from("{");
        match &term.kind {
            TerminatorKind::Goto { target } => {
                let _ = write!(t, "\"k\":\"goto\",\"target\":{}", target.as_usize());
            }
            TerminatorKind::SwitchInt { discr, targets } => {
                let mut arms = Vec::new();
                for (v, bb) in targets.iter() {
                    arms.push(format!("[\"{}\",{}]", v, bb.as_usize()));
                }
                let dty = discr.ty(body, self.tcx);
                let _ = write!(
                    t,
                    "\"k\":\"switch\",\"discr\":{},\"dty\":{},\"arms\":[{}],\"otherwise\":{}",
                    self.operand(body, discr),
                    js(&self.ty(dty)),
                    arms.join(","),
                    targets.otherwise().as_usize()
                );
            }
            TerminatorKind::Return => t.push_str("\"k\":\"return\""),
            TerminatorKind::Unreachable => t.push_str("\"k\":\"unreachable\""),
            TerminatorKind::UnwindResume => t.push_str("\"k\":\"resume\""),
            TerminatorKind::UnwindTerminate(_) => t.push_str("\"k\":\"terminate\""),
            TerminatorKind::Drop { place, target, unwind, .. } => {
                let pty = place.ty(body, self.tcx).ty;
                let _ = write!(
                    t,
                    "\"k\":\"drop\",\"pl\":{},\"ty\":{},\"target\":{}{}",
                    self.place(body, place),
                    js(&self.ty(pty)),
                    target.as_usize(),
                    unwind_json(unwind)
                );
            }
            TerminatorKind::Call { func, args, destination, target, unwind, fn_span, .. } => {
                let argss: Vec<String> = args.iter().map(|a| self.operand(body, &a.node)).collect();
                let _ = write!(
                    t,
                    "\"k\":\"call\",\"func\":{},\"args\":[{}],\"dest\":{}",
                    self.operand(body, func),
                    argss.join(","),
                    self.place(body, destination)
                );
                if let Some(tg) = target {
                    let _ = write!(t, ",\"target\":{}", tg.as_usize());
                }
                t.push_str(&unwind_json(unwind));
                let _ = write!(t, ",\"fnsp\":{}", self.span_json(*fn_span));
                // resolution
                let fty = func.ty(body, self.tcx);
                if let ty::FnDef(did, gargs) = fty.kind() {
                    let _ = write!(t, ",\"callee\":{}", js(&self.path(*did)));
                    let _ = write!(t, ",\"callee_args\":{}", js(&self.path_args(*did, gargs)));
                    let targs: Vec<String> = gargs
                        .iter()
                        .filter_map(|a| a.as_type())
                        .map(|x| js(&self.ty(x)))
                        .collect();
                    let _ = write!(t, ",\"targs\":[{}]", targs.join(","));
                    if let Some(tr) = self.tcx.trait_of_assoc(*did) {
                        let _ = write!(t, ",\"trait\":{}", js(&self.path(tr)));
                    }
                    let env = TypingEnv::post_analysis(self.tcx, def.to_def_id());
                    let res = std::panic::catch_unwind(std::panic::AssertUnwindSafe(|| {
                        Instance::try_resolve(self.tcx, env, *did, gargs)
                    }));
                    if let Ok(Ok(Some(inst))) = res {
                        let rdid = inst.def_id();
                        let kind = match inst.def {
                            ty::InstanceKind::Item(_) => "item",
                            ty::InstanceKind::Virtual(..) => "virtual",
                            ty::InstanceKind::Intrinsic(_) => "intrinsic",
                            ty::InstanceKind::ClosureOnceShim { .. } => "closure_once",
                            ty::InstanceKind::FnPtrShim(..) => "fnptr_shim",
                            ty::InstanceKind::DropGlue(..) => "drop_glue",
                            ty::InstanceKind::CloneShim(..) => "clone_shim",
                            _ => "othershim",
                        };
                        let _ = write!(
                            t,
                            ",\"res\":{},\"res_args\":{},\"res_kind\":\"{}\"",
                            js(&self.path(rdid)),
                            js(&self.path_args(rdid, inst.args)),
                            kind
                        );
                        // the type arguments of the resolved instance (for an impl method: the impl's own parameters first), in the order of its `generics`
                        let rt: Vec<String> = inst.args.iter().filter_map(|a| a.as_type()).map(|x| js(&self.ty(x))).collect();
                        let _ = write!(t, ",\"res_targs\":[{}]", rt.join(","));
                    }
                } else {
                    let _ = write!(t, ",\"indirect\":{}", js(&self.ty(fty)));
                }
            }
            TerminatorKind::Assert { cond, expected, msg, target, unwind } => {
                let kind = format!("{:?}", msg);
                let kind = kind.split('(').next().unwrap_or("").to_string();
                let _ = write!(
                    t,
                    "\"k\":\"assert\",\"cond\":{},\"expected\":{},\"msg\":{},\"target\":{}{}",
                    self.operand(body, cond),
                    expected,
                    js(&kind),
                    target.as_usize(),
                    unwind_json(unwind)
                );
            }
            TerminatorKind::FalseEdge { real_target, .. } => {
                let _ = write!(t, "\"k\":\"goto\",\"target\":{}", real_target.as_usize());
            }
            TerminatorKind::FalseUnwind { real_target, .. } => {
                let _ = write!(t, "\"k\":\"goto\",\"target\":{}", real_target.as_usize());
            }
            other => {
                let _ = write!(t, "\"k\":\"other\",\"dbg\":{}", js(&format!("{:?}", other)));
            }
        }
        let _ = write!(t, ",\"sp\":{}", self.span_json(term.source_info.span));
        t.push('}');
        s.push_str(&t);
        s.push('}');
        s
    }

    fn type_params(&self, did: DefId) -> Vec<String> {
        let g = self.tcx.generics_of(did);
        let mut v = if let Some(p) = g.parent { self.type_params(p) } else { Vec::new() };
        for p in &g.own_params {
            if matches!(p.kind, ty::GenericParamDefKind::Type { .. }) {
                v.push(p.name.to_string());
            }
        }
        v
    }

    fn body_json(&self, def: LocalDefId) -> Option<String> {
        let tcx = self.tcx;
        let did = def.to_def_id();
        let kind = tcx.def_kind(did);
        let is_fn_like = matches!(kind, DefKind::Fn | DefKind::AssocFn | DefKind::Closure);
        if !is_fn_like {
            return None;
        }
        if !tcx.is_mir_available(did) {
            return None;
        }
        let body: &Body<'tcx> = tcx.optimized_mir(did);
        let mut s = String::from("{");
        let _ = write!(s, "\"path\":{}", js(&self.path(did)));
        let _ = write!(s, ",\"kind\":\"{:?}\"", kind);
        let _ = write!(s, ",\"span\":{}", self.span_json(body.span));
        if matches!(kind, DefKind::Fn | DefKind::AssocFn) {
            let vis = tcx.visibility(did);
            let v = match vis {
                ty::Visibility::Public => "pub".to_string(),
                ty::Visibility::Restricted(m) => format!("in:{}", self.path(m)),
            };
            let _ = write!(s, ",\"vis\":{}", js(&v));
            let sig = tcx.fn_sig(did).instantiate_identity().skip_norm_wip().skip_binder();
            let ins: Vec<String> = sig.inputs().iter().map(|t| js(&self.ty(*t))).collect();
            let _ = write!(
                s,
                ",\"inputs\":[{}],\"output\":{}",
                ins.join(","),
                js(&self.ty(sig.output()))
            );
            if let Some(imp) = tcx.impl_of_assoc(did) {
                let self_ty = tcx.type_of(imp).instantiate_identity().skip_norm_wip();
                let _ = write!(s, ",\"impl_self\":{}", js(&self.ty(self_ty)));
                if let Some(tr) = tcx.impl_opt_trait_ref(imp) {
                    let tr = tr.instantiate_identity().skip_norm_wip();
                    let _ = write!(s, ",\"impl_trait\":{}", js(&self.path(tr.def_id)));
                    let _ = write!(
                        s,
                        ",\"impl_trait_ref\":{}",
                        js(&with_no_trimmed_paths!(format!("{}", tr)))
                    );
                }
            }
            if let Some(tr) = tcx.trait_of_assoc(did) {
                let _ = write!(s, ",\"trait_default\":{}", js(&self.path(tr)));
            }
            let _ = write!(s, ",\"name\":{}", js(&tcx.item_name(did).to_string()));
            // type parameters in the order of a call's `targs` (the parent's first)
            let tps: Vec<String> = self.type_params(did).iter().map(|n| js(n)).collect();
            let _ = write!(s, ",\"generics\":[{}]", tps.join(","));
        } else {
            let parent = tcx.typeck_root_def_id(did);
            let _ = write!(s, ",\"root\":{}", js(&self.path(parent)));
        }
        let _ = write!(s, ",\"argc\":{}", body.arg_count);
        // locals
        let mut names: Vec<Option<String>> = vec![None; body.local_decls.len()];
        let mut upvars: Vec<String> = Vec::new();
        for vdi in &body.var_debug_info {
            match &vdi.value {
                mir::VarDebugInfoContents::Place(p) => {
                    if p.projection.is_empty() {
                        names[p.local.as_usize()] = Some(vdi.name.to_string());
                    } else {
                        upvars.push(format!(
                            "{{\"name\":{},\"pl\":{}}}",
                            js(&vdi.name.to_string()),
                            self.place(body, p)
                        ));
                    }
                }
                mir::VarDebugInfoContents::Const(c) => {
                    upvars.push(format!(
                        "{{\"name\":{},\"const\":{}}}",
                        js(&vdi.name.to_string()),
                        self.constant(c)
                    ));
                }
            }
        }
        s.push_str(",\"locals\":[");
        for (i, ld) in body.local_decls.iter().enumerate() {
            if i > 0 {
                s.push(',');
            }
            let _ = write!(s, "{{\"ty\":{}", js(&self.ty(ld.ty)));
            if let Some(n) = &names[i] {
                let _ = write!(s, ",\"name\":{}", js(n));
            }
            
            s.push('}');
        }
        s.push(']');
        let _ = write!(s, ",\"dbg\":[{}]", upvars.join(","));
        s.push_str(",\"blocks\":[");
        for (i, bb) in body.basic_blocks.iter().enumerate() {
            if i > 0 {
                s.push(',');
            }
            s.push_str(&self.block(def, body, bb));
        }
        s.push(']');
        // promoted constants of this body (`&Some(&f64::INFINITY)`, `&[..]`): small bodies of their own, exported so that rules can see their value
        s.push_str(",\"promoted\":[");
        let proms = tcx.promoted_mir(did);
        for (pi, pb) in proms.iter().enumerate() {
            if pi > 0 {
                s.push(',');
            }
            let _ = write!(s, "{{\"path\":{},\"kind\":\"Promoted\",\"span\":{},\"argc\":0,\"dbg\":[],\"locals\":[", js(&format!("{}::promoted[{}]", self.path(did), pi)), self.span_json(pb.span));
            for (i, ld) in pb.local_decls.iter().enumerate() {
                if i > 0 {
                    s.push(',');
                }
                let _ = write!(s, "{{\"ty\":{}}}", js(&self.ty(ld.ty)));
            }
            s.push_str("],\"blocks\":[");
            for (i, bb) in pb.basic_blocks.iter().enumerate() {
                if i > 0 {
                    s.push(',');
                }
                s.push_str(&self.block(def, pb, bb));
            }
            s.push_str("]}");
        }
        s.push_str("]}");
        Some(s)
    }

    fn items_json(&self) -> String {
        let tcx = self.tcx;
        let mut adts = Vec::new();
        let mut impls = Vec::new();
        let mut consts = Vec::new();
        let mut macros = Vec::new();
        let mut aliases = Vec::new();
        let mut statics = Vec::new();
        let mut fns_nobody = Vec::new();
        for id in tcx.hir_crate_items(()).definitions() {
            let did = id.to_def_id();
            let kind = tcx.def_kind(did);
            match kind {
                DefKind::Struct | DefKind::Enum | DefKind::Union => {
                    let adt = tcx.adt_def(did);
                    let mut vs = Vec::new();
                    for (vi, v) in adt.variants().iter_enumerated() {
                        let mut fs = Vec::new();
                        for f in v.fields.iter() {
                            let fty = tcx.type_of(f.did).instantiate_identity().skip_norm_wip();
                            let fvis = match f.vis {
                                ty::Visibility::Public => "pub".to_string(),
                                ty::Visibility::Restricted(m) => format!("in:{}", self.path(m)),
                            };
                            fs.push(format!(
                                "{{\"name\":{},\"ty\":{},\"vis\":{}}}",
                                js(&f.name.to_string()),
                                js(&self.ty(fty)),
                                js(&fvis)
                            ));
                        }
                        let discr = if adt.is_enum() {
                            format!("\"{}\"", adt.discriminant_for_variant(tcx, vi).val)
                        } else {
                            "null".to_string()
                        };
                        vs.push(format!(
                            "{{\"name\":{},\"discr\":{},\"fields\":[{}]}}",
                            js(&v.name.to_string()),
                            discr,
                            fs.join(",")
                        ));
                    }
                    let vis = match tcx.visibility(did) {
                        ty::Visibility::Public => "pub".to_string(),
                        ty::Visibility::Restricted(m) => format!("in:{}", self.path(m)),
                    };
                    let gens: Vec<String> = tcx
                        .generics_of(did)
                        .own_params
                        .iter()
                        .filter(|p| matches!(p.kind, ty::GenericParamDefKind::Type { .. }))
                        .map(|p| js(&p.name.to_string()))
                        .collect();
                    adts.push(format!(
                        "{{\"path\":{},\"kind\":\"{:?}\",\"vis\":{},\"span\":{},\"generics\":[{}],\"variants\":[{}]}}",
                        js(&self.path(did)),
                        kind,
                        js(&vis),
                        self.span_json(tcx.def_span(did)),
                        gens.join(","),
                        vs.join(",")
                    ));
                }
                DefKind::Impl { .. } => {
                    let self_ty = tcx.type_of(did).instantiate_identity().skip_norm_wip();
                    let mut s = format!("{{\"self\":{}", js(&self.ty(self_ty)));
                    if let Some(tr) = tcx.impl_opt_trait_ref(did) {
                        let tr = tr.instantiate_identity().skip_norm_wip();
                        let _ = write!(
                            s,
                            ",\"trait\":{},\"trait_ref\":{}",
                            js(&self.path(tr.def_id)),
                            js(&with_no_trimmed_paths!(format!("{}", tr)))
                        );
                    }
                    let mut ms = Vec::new();
                    for it in tcx.associated_items(did).in_definition_order() {
                        if matches!(it.kind, ty::AssocKind::Fn { .. }) {
                            let mut m = format!(
                                "{{\"name\":{},\"path\":{}",
                                js(&it.name().to_string()),
                                js(&self.path(it.def_id))
                            );
                            if let Some(tid) = it.trait_item_def_id() {
                                let _ = write!(m, ",\"trait_item\":{}", js(&self.path(tid)));
                            }
                            m.push('}');
                            ms.push(m);
                        }
                    }
                    let _ = write!(
                        s,
                        ",\"methods\":[{}],\"span\":{},\"exp\":{}}}",
                        ms.join(","),
                        self.span_json(tcx.def_span(did)),
                        tcx.def_span(did).from_expansion()
                    );
                    impls.push(s);
                }
                DefKind::Const { .. } | DefKind::AssocConst { .. } => {
                    let t = tcx.type_of(did).instantiate_identity().skip_norm_wip();
                    let mut s =
                        format!("{{\"path\":{},\"ty\":{}", js(&self.path(did)), js(&self.ty(t)));
                    if tcx.generics_of(did).is_empty() && matches!(kind, DefKind::Const { .. }) {
                        if let Ok(v) = tcx.const_eval_poly(did) {
                            if t.is_integral() || t.is_bool() || t.is_char() || t.is_floating_point() {
                                if let Some(sc) = v.try_to_scalar_int() {
                                    let _ = write!(s, ",\"bits\":\"{}\"", sc.to_bits_unchecked());
                                }
                            }
                            let is_str = matches!(t.kind(), ty::Ref(_, inner, _) if inner.is_str());
                            if is_str || t.is_integral() || t.is_bool() || t.is_char() || t.is_floating_point() {
                                let shown = format!("{}", mir::Const::Val(v, t));
                                let _ = write!(s, ",\"val\":{}", js(&shown));
                            }
                        }
                    }
                    s.push('}');
                    consts.push(s);
                }
                DefKind::Static { .. } => {
                    let t = tcx.type_of(did).instantiate_identity().skip_norm_wip();
                    statics.push(format!(
                        "{{\"path\":{},\"ty\":{}}}",
                        js(&self.path(did)),
                        js(&self.ty(t))
                    ));
                }
                DefKind::Macro(_) => {
                    macros.push(format!(
                        "{{\"path\":{},\"span\":{}}}",
                        js(&self.path(did)),
                        self.span_json(tcx.def_span(did))
                    ));
                }
                DefKind::TyAlias => {
                    let t = tcx.type_of(did).instantiate_identity().skip_norm_wip();
                    aliases.push(format!(
                        "{{\"path\":{},\"ty\":{}}}",
                        js(&self.path(did)),
                        js(&self.ty(t))
                    ));
                }
                DefKind::AssocFn => {
                    // trait methods without a default body: signature only
                    if !tcx.is_mir_available(did) {
                        fns_nobody.push(js(&self.path(did)));
                    }
                }
                _ => {}
            }
        }
        format!(
            "\"adts\":[{}],\"impls\":[{}],\"consts\":[{}],\"statics\":[{}],\"macros\":[{}],\"aliases\":[{}],\"nobody\":[{}]",
            adts.join(","),
            impls.join(","),
            consts.join(","),
            statics.join(","),
            macros.join(","),
            aliases.join(","),
            fns_nobody.join(",")
        )
    }
}

fn unwind_json(u: &mir::UnwindAction) -> String {
    match u {
        mir::UnwindAction::Cleanup(bb) => format!(",\"unwind\":{}", bb.as_usize()),
        _ => String::new(),
    }
}

struct Facts {
    out_dir: String,
    nonce: String,
}

impl Callbacks for Facts {
    fn after_analysis<'tcx>(
        &mut self,
        _compiler: &rustc_interface::interface::Compiler,
        tcx: TyCtxt<'tcx>,
    ) -> Compilation {
        let krate = tcx.crate_name(rustc_hir::def_id::LOCAL_CRATE).to_string();
        let out = with_crate_prefix!(with_no_trimmed_paths!(self.dump(tcx, &krate)));
        let out = replace_crate(&out, &krate);
        let is_test = tcx.sess.opts.test;
        let kind = if is_test { "test" } else { "lib" };
        let extra = std::env::var("MIRFACTS_TAG").unwrap_or_default();
        let fname = format!("{}/{}-{}{}.json", self.out_dir, krate, kind, extra);
        std::fs::create_dir_all(&self.out_dir).expect("mkdir facts dir");
        let tmp = format!("{}.tmp{}", fname, std::process::id());
        std::fs::write(&tmp, out).expect("write facts");
        std::fs::rename(&tmp, &fname).expect("rename facts");
        Compilation::Continue
    }
}

fn replace_crate(s: &str, krate: &str) -> String {
    let mut out = String::with_capacity(s.len() + s.len() / 8);
    let b = s.as_bytes();
    let mut i = 0;
    let mut last = 0;
    while let Some(pos) = s[i..].find("crate::") {
        let at = i + pos;
        let prev_ok = at == 0 || !(b[at - 1].is_ascii_alphanumeric() || b[at - 1] == b'_' || b[at - 1] == b'$');
        if prev_ok {
            out.push_str(&s[last..at]);
            out.push_str(krate);
            out.push_str("::");
            last = at + 7;
        }
        i = at + 7;
    }
    out.push_str(&s[last..]);
    out
}

impl Facts {
    fn dump<'tcx>(&self, tcx: TyCtxt<'tcx>, krate: &str) -> String {
        let cx = Cx { tcx };
        let ctypes: Vec<String> =
            tcx.crate_types().iter().map(|c| format!("{:?}", c)).collect();
        let mut out = String::with_capacity(1 << 22);
        out.push('{');
        let _ = write!(out, "\"crate\":{},\"nonce\":{}", js(&krate), js(&self.nonce));
        let _ = write!(out, ",\"crate_types\":{}", js(&ctypes.join(",")));
        let mut feats: Vec<String> = Vec::new();
        for (name, val) in tcx.sess.config.iter() {
            if name.as_str() == "feature" {
                if let Some(v) = val {
                    feats.push(js(&v.to_string()));
                }
            }
        }
        feats.sort();
        let _ = write!(out, ",\"features\":[{}]", feats.join(","));
        let is_test = tcx.sess.opts.test;
        let _ = write!(out, ",\"test\":{}", is_test);
        out.push_str(",\"bodies\":[");
        let mut first = true;
        for def in tcx.hir_body_owners() {
            if let Some(b) = cx.body_json(def) {
                if !first {
                    out.push(',');
                }
                first = false;
                out.push_str(&b);
            }
        }
        out.push_str("],");
        out.push_str(&cx.items_json());
        out.push('}');
        out
    }
}

struct Plain;
impl Callbacks for Plain {}

fn main() {
    let mut args: Vec<String> = std::env::args().collect();
    // wrapper mode: argv[1] is the path of the real rustc
    if args.len() > 1 && (args[1].ends_with("rustc") || args[1].contains("/rustc")) {
        args.remove(1);
    }
    let mut crate_name = String::new();
    for i in 0..args.len() {
        if args[i] == "--crate-name" && i + 1 < args.len() {
            crate_name = args[i + 1].clone();
        }
    }
    let out_dir = std::env::var("MIRFACTS_OUT").unwrap_or_default();
    let wanted = std::env::var("MIRFACTS_CRATES").unwrap_or_default();
    let enabled = !out_dir.is_empty()
        && !crate_name.is_empty()
        && wanted.split(',').any(|w| w == crate_name);
    rustc_driver::install_ice_hook("https://example.invalid/mirfacts", |_| ());
    let code = rustc_driver::catch_with_exit_code(|| {
        if enabled {
            let mut cb =
                Facts { out_dir, nonce: std::env::var("MIRFACTS_NONCE").unwrap_or_default() };
            rustc_driver::run_compiler(&args, &mut cb)
        } else {
            rustc_driver::run_compiler(&args, &mut Plain)
        }
    });
    std::process::exit(if code == std::process::ExitCode::SUCCESS { 0 } else { 1 });
}
