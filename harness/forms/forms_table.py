"""Table of every public macro form of src/macros.rs (C20).  Used both to generate harness/forms/src/lib.rs and as the spec
the expansion MIR is checked against.  One entry per form; each is instantiated with and without a trailing comma."""

# argument kinds -> Rust parameter type
ARG_TY = {
    "NAME": "String", "HELP": "String", "OPTS": "prometheus::Opts", "HOPTS": "prometheus::HistogramOpts", "LABELS_NAMES": "&[&str]",
    "BUCKETS": "Vec<f64>", "REGISTRY": "prometheus::Registry", "CL1": "std::collections::HashMap<&str, &str>", "CL2": "std::collections::HashMap<&str, &str>",
    "HCL": "std::collections::HashMap<String, String>", "K1": "&'static str", "V1": "&'static str", "K2": "&'static str", "V2": "&'static str",
}

# (macro, args, kind, metric)   kind: labels | opts | hopts | scalar | vec | hist | histvec
FORMS = [
    ("labels", [], "labels", None),
    ("labels", ["K1=>V1", "K2=>V2"], "labels", None),
    ("opts", ["NAME", "HELP"], "opts", None),
    ("opts", ["NAME", "HELP", "CL1"], "opts", None),
    ("opts", ["NAME", "HELP", "CL1", "CL2"], "opts", None),
    ("histogram_opts", ["NAME", "HELP"], "hopts", None),
    ("histogram_opts", ["NAME", "HELP", "BUCKETS"], "hopts", None),
    ("histogram_opts", ["NAME", "HELP", "BUCKETS", "HCL"], "hopts", None),
]
for prefix, cell in (("counter", "AtomicF64"), ("int_counter", "AtomicU64"), ("gauge", "AtomicF64"), ("int_gauge", "AtomicI64")):
    base = "counter" if "counter" in prefix else "gauge"
    ty = {"counter": "Counter", "int_counter": "IntCounter", "gauge": "Gauge", "int_gauge": "IntGauge"}[prefix]
    FORMS += [
        ("register_%s" % prefix, ["OPTS"], "scalar", (ty, base, cell)),
        ("register_%s" % prefix, ["NAME", "HELP"], "scalar", (ty, base, cell)),
        ("register_%s_with_registry" % prefix, ["OPTS", "REGISTRY"], "scalar", (ty, base, cell)),
        ("register_%s_with_registry" % prefix, ["NAME", "HELP", "REGISTRY"], "scalar", (ty, base, cell)),
        ("register_%s_vec" % prefix, ["OPTS", "LABELS_NAMES"], "vec", (ty + "Vec", base, cell)),
        ("register_%s_vec" % prefix, ["NAME", "HELP", "LABELS_NAMES"], "vec", (ty + "Vec", base, cell)),
        ("register_%s_vec_with_registry" % prefix, ["OPTS", "LABELS_NAMES", "REGISTRY"], "vec", (ty + "Vec", base, cell)),
        ("register_%s_vec_with_registry" % prefix, ["NAME", "HELP", "LABELS_NAMES", "REGISTRY"], "vec", (ty + "Vec", base, cell)),
    ]
FORMS += [
    ("register_histogram", ["NAME", "HELP"], "hist", ("Histogram", "histogram", None)),
    ("register_histogram", ["NAME", "HELP", "BUCKETS"], "hist", ("Histogram", "histogram", None)),
    ("register_histogram", ["HOPTS"], "hist", ("Histogram", "histogram", None)),
    ("register_histogram_with_registry", ["NAME", "HELP", "REGISTRY"], "hist", ("Histogram", "histogram", None)),
    ("register_histogram_with_registry", ["NAME", "HELP", "BUCKETS", "REGISTRY"], "hist", ("Histogram", "histogram", None)),
    ("register_histogram_with_registry", ["HOPTS", "REGISTRY"], "hist", ("Histogram", "histogram", None)),
    ("register_histogram_vec", ["HOPTS", "LABELS_NAMES"], "histvec", ("HistogramVec", "histogram", None)),
    ("register_histogram_vec", ["NAME", "HELP", "LABELS_NAMES"], "histvec", ("HistogramVec", "histogram", None)),
    ("register_histogram_vec", ["NAME", "HELP", "LABELS_NAMES", "BUCKETS"], "histvec", ("HistogramVec", "histogram", None)),
    ("register_histogram_vec_with_registry", ["HOPTS", "LABELS_NAMES", "REGISTRY"], "histvec", ("HistogramVec", "histogram", None)),
    ("register_histogram_vec_with_registry", ["NAME", "HELP", "LABELS_NAMES", "REGISTRY"], "histvec", ("HistogramVec", "histogram", None)),
    ("register_histogram_vec_with_registry", ["NAME", "HELP", "LABELS_NAMES", "BUCKETS", "REGISTRY"], "histvec", ("HistogramVec", "histogram", None)),
]

# number of public arms per macro as written in src/macros.rs today (hidden helpers and @of_type arms excluded) — compared with the table so
# that a new arm is reported as uncovered
PUBLIC_ARMS = {}
for m, args, kind, metric in FORMS:
    PUBLIC_ARMS[m] = PUBLIC_ARMS.get(m, 0) + 1
PUBLIC_ARMS["labels"] = 1   # one arm with a repetition
PUBLIC_ARMS["opts"] = 1


def fn_name(i, m, args, comma):
    return "f%02d_%s_%d%s" % (i, m, len(args), "_tc" if comma else "")


def ret_type(kind, metric):
    if kind == "labels":
        return "std::collections::HashMap<&'static str, &'static str>"
    if kind == "opts":
        return "prometheus::Opts"
    if kind == "hopts":
        return "prometheus::HistogramOpts"
    return "prometheus::Result<prometheus::%s>" % metric[0]


def instances():
    out = []
    for i, (m, args, kind, metric) in enumerate(FORMS):
        for comma in (False, True):
            if comma and not args:
                continue
            out.append({"fn": fn_name(i, m, args, comma), "macro": m, "args": args, "kind": kind, "metric": metric, "comma": comma, "index": i})
    return out


HELPERS = ["__register_counter_vec", "__register_gauge", "__register_gauge_vec"]


def generate():
    lines = ["// GENERATED by harness/forms/forms_table.py — one function per public macro form; arguments are opaque parameters,",
             "// so facts about the expansion's MIR hold for all argument values.  Never executed.",
             "//",
             "// Hygiene probe: every macro of the crate is shadowed here by a decoy of the same name, and the forms are invoked through their",
             "// absolute path.  An arm that refers to a sibling macro without `$crate::` (or `local_inner_macros`) would pick up the decoy, whose",
             "// expansion is a call of `forms::decoy` and is reported by the call-multiset rule.",
             "#![allow(unused_macros, unused_imports, clippy::all)]", "",
             "pub fn decoy<T>() -> T {", "    unreachable!()", "}", ""]
    names = sorted(set(m for m, _, _, _ in FORMS)) + HELPERS
    for n in names:
        lines.append("macro_rules! %s {\n    ($($t:tt)*) => {\n        $crate::decoy()\n    };\n}" % n)
    lines.append("")
    for inst in instances():
        params = []
        call_args = []
        for a in inst["args"]:
            if "=>" in a:
                k, v = a.split("=>")
                params += ["%s: %s" % (k.lower(), ARG_TY[k]), "%s: %s" % (v.lower(), ARG_TY[v])]
                call_args.append("%s => %s" % (k.lower(), v.lower()))
            else:
                params.append("%s: %s" % (a.lower(), ARG_TY[a]))
                call_args.append(a.lower())
        body = "prometheus::%s!(%s%s)" % (inst["macro"], ", ".join(call_args), "," if inst["comma"] else "")
        lines.append("pub fn %s(%s) -> %s {\n    %s\n}\n" % (inst["fn"], ", ".join(params), ret_type(inst["kind"], inst["metric"]), body))
    return "\n".join(lines)


if __name__ == "__main__":
    import os
    p = os.path.join(os.path.dirname(os.path.abspath(__file__)), "src", "lib.rs")
    open(p, "w").write(generate())
    print("wrote", p, len(instances()), "forms")
