#!/usr/bin/env python3
"""Generator of static-metric declarations (C19): emits harness/smgen/src/lib.rs and a sidecar spec (spec.json) that is computed from the
generator's own model of the grammar — never from the macro.  The grammar is the property's: 1-4 labels, 1-4 values each, value forms
{ident, `name: "value"`, label_enum reference with / without renamed values}, metric types Counter/IntCounter/Gauge/IntGauge/Histogram and
their Local* forms for make_static_metric!, LocalCounter/LocalIntCounter/LocalHistogram for make_auto_flush_static_metric!."""
import itertools
import json
import os
import random
import sys

HERE = os.path.dirname(os.path.abspath(__file__))
PLAIN_TYPES = ["Counter", "IntCounter", "Gauge", "IntGauge", "Histogram", "LocalCounter", "LocalIntCounter", "LocalHistogram"]
AF_TYPES = ["LocalCounter", "LocalIntCounter", "LocalHistogram"]
FORMS = ["inline", "inline_renamed", "enum", "enum_renamed"]
VEC_OF = {"Counter": "CounterVec", "IntCounter": "IntCounterVec", "Gauge": "GaugeVec", "IntGauge": "IntGaugeVec", "Histogram": "HistogramVec",
          "LocalCounter": "CounterVec", "LocalIntCounter": "IntCounterVec", "LocalHistogram": "HistogramVec"}


IDENT_PREFIXES = ["v", "read", "rr", "r", "Upper", "_u", "z9", "r_"]


def make_decl(k, macro, mtype, label_specs):
    """label_specs: list of (form, nvalues).  Returns (rust source of the module, spec dict)."""
    enums = []
    labels = []
    for li, (form, nv) in enumerate(label_specs):
        lname = "lab%d_%d" % (k, li)
        vals = []
        for vi in range(nv):
            # identifier shapes: the declared name is also the label value in the shorthand form, so the pool covers leading letters that
            # prefix-stripping / case-folding code could eat (r.., rr.., R.., _.., upper case, trailing digits)
            ident = "%s%d_%d" % (IDENT_PREFIXES[(k + li + vi) % len(IDENT_PREFIXES)], li, vi)
            renamed = form.endswith("renamed") and (vi % 2 == 0)
            value = ("val %d-%d \\\"q\\\" é" % (li, vi)) if (renamed and vi == 0 and li == 0) else (("value_%d_%d" % (li, vi)) if renamed else ident)
            vals.append((ident, value, renamed))
        ename = None
        if form.startswith("enum"):
            ename = "E%d_%d" % (k, li)
            enums.append((ename, vals))
        labels.append({"name": lname, "form": form, "enum": ename, "values": vals})
    sname = "M%d" % k
    src = ["pub mod d%d {" % k, "    use super::*;", "    %s! {" % macro]
    for ename, vals in enums:
        src.append("        pub label_enum %s {" % ename)
        for ident, value, renamed in vals:
            src.append("            %s%s," % (ident, (': "%s"' % value) if renamed else ""))
        src.append("        }")
    src.append("        pub struct %s: %s {" % (sname, mtype))
    for lab in labels:
        if lab["enum"]:
            src.append('            "%s" => %s,' % (lab["name"], lab["enum"]))
        else:
            src.append('            "%s" => {' % lab["name"])
            for ident, value, renamed in lab["values"]:
                src.append("                %s%s," % (ident, (': "%s"' % value) if renamed else ""))
            src.append("            },")
    src.append("        }")
    src.append("    }")
    src.append("}")
    spec = {"module": "d%d" % k, "macro": macro, "struct": sname, "type": mtype, "vec": VEC_OF[mtype],
            "labels": [{"name": l["name"], "enum": l["enum"], "values": [[i, v.replace('\\"', '"')] for i, v, _ in l["values"]]} for l in labels]}
    return "\n".join(src), spec


def choose(tier, seed):
    rnd = random.Random(seed)
    decls = []
    # covering set: every label count x every form at every position (pairwise on value counts), every metric type
    k = 0
    combos = []
    for L in range(1, 5):
        # all forms at position 0 and last, mixed elsewhere
        for f0 in FORMS:
            forms = [f0] + [FORMS[(FORMS.index(f0) + 1 + j) % 4] for j in range(L - 1)]
            combos.append(forms)
    types_plain = itertools.cycle(PLAIN_TYPES)
    types_af = itertools.cycle(AF_TYPES)
    limit = 40 if tier == "quick" else 300
    nvs = [1, 2, 3, 4]
    i = 0
    while len(decls) < limit:
        forms = combos[i % len(combos)]
        L = len(forms)
        # keep the number of leaves bounded (<= 64)
        counts = [nvs[(i + j) % 4] for j in range(L)]
        while 1:
            prod = 1
            for c in counts:
                prod *= c
            if prod <= 48:
                break
            counts[counts.index(max(counts))] -= 1
        af = (i % 3 == 2)
        macro = "make_auto_flush_static_metric" if af else "make_static_metric"
        mtype = next(types_af) if af else next(types_plain)
        if tier != "quick" and i >= len(combos) * 3:
            forms = [rnd.choice(FORMS) for _ in range(rnd.randint(1, 4))]
            counts = [rnd.randint(1, 4) for _ in forms]
            while 1:
                prod = 1
                for c in counts:
                    prod *= c
                if prod <= 48:
                    break
                counts[counts.index(max(counts))] -= 1
        decls.append((macro, mtype, list(zip(forms, counts))))
        i += 1
    return decls


def generate(tier="quick", seed=0):
    srcs = ["// GENERATED by harness/smgen/gen.py (tier %s, seed %d) — declarations from the grammar of property C19; never executed." % (tier, seed),
            "#![allow(dead_code, non_camel_case_types, non_snake_case, unused_imports, clippy::all)]", "use prometheus::*;", "use prometheus::local::*;", "use prometheus_static_metric::*;", ""]
    specs = []
    for k, (macro, mtype, labs) in enumerate(choose(tier, seed)):
        s, sp = make_decl(k, macro, mtype, labs)
        srcs.append(s)
        specs.append(sp)
    return "\n".join(srcs) + "\n", specs


if __name__ == "__main__":
    tier = sys.argv[1] if len(sys.argv) > 1 else "quick"
    seed = int(sys.argv[2]) if len(sys.argv) > 2 else 0
    out = sys.argv[3] if len(sys.argv) > 3 else os.path.join(HERE, "src")
    src, specs = generate(tier, seed)
    os.makedirs(out, exist_ok=True)
    open(os.path.join(out, "lib.rs"), "w").write(src)
    json.dump(specs, open(os.path.join(out, "spec.json"), "w"), indent=1)
    print("wrote %d declarations" % len(specs))
