#![allow(dead_code, non_camel_case_types, clippy::all)]
use prometheus::*;
use prometheus_static_metric::*;

pub mod d0 {
    use super::*;
    make_static_metric! {
        pub label_enum E0 { aa, bb: "bb_name", }
        pub struct S0: Counter {
            "l0" => E0,
            "l1" => { foo, bar: "bar_name", },
        }
    }
}
pub mod d1 {
    use super::*;
    make_auto_flush_static_metric! {
        pub label_enum E1 { xx, yy, }
        pub struct A1: LocalIntCounter {
            "l0" => E1,
            "l1" => { p, q: "q_name", },
        }
    }
}
