//! Compile-fail witnesses: programs that violate a type-level clause of a property and must be rejected by rustc with the
//! stated error code.  Every witness `w_*` has a compiling twin `t_*` that differs only by the offending line (a witness whose
//! path is merely wrong would also "fail to compile").  Twins are `no_run`: nothing here is ever executed.
//! Run by `pvrules/witness.py` with `cargo +nightly test --doc` (error codes are only checked on nightly).
#![allow(dead_code)]

/// C01: a counter cannot be decremented — there is no `dec` on `Counter`.
/// ```compile_fail,E0599
/// let c = prometheus::Counter::new("n", "h").unwrap();
/// c.inc();
/// c.dec();
/// ```
pub mod w_c01_counter_has_no_dec {}
/// ```no_run
/// let c = prometheus::Gauge::new("n", "h").unwrap();
/// c.inc();
/// c.dec();
/// ```
pub mod t_c01_counter_has_no_dec {}

/// C01: a counter cannot be set — there is no `set` on `IntCounter`.
/// ```compile_fail,E0599
/// let c = prometheus::IntCounter::new("n", "h").unwrap();
/// c.inc_by(1);
/// c.set(0);
/// ```
pub mod w_c01_int_counter_has_no_set {}
/// ```no_run
/// let c = prometheus::IntGauge::new("n", "h").unwrap();
/// c.add(1);
/// c.set(0);
/// ```
pub mod t_c01_int_counter_has_no_set {}

/// C01: an integer counter cannot be incremented by a negative amount (the argument is unsigned).
/// ```compile_fail,E0600
/// let c = prometheus::IntCounter::new("n", "h").unwrap();
/// let d: u64 = 1;
/// c.inc_by(-d);
/// ```
pub mod w_c01_int_counter_inc_by_is_unsigned {}
/// ```no_run
/// let c = prometheus::IntCounter::new("n", "h").unwrap();
/// let d: u64 = 1;
/// c.inc_by(d);
/// ```
pub mod t_c01_int_counter_inc_by_is_unsigned {}

/// C12: a local counter cannot be shared between threads.
/// ```compile_fail,E0277
/// fn shared<T: Sync>(_: &T) {}
/// let c = prometheus::IntCounter::new("n", "h").unwrap();
/// shared(&c.local());
/// ```
pub mod w_c12_local_counter_not_sync {}
/// ```no_run
/// fn shared<T: Sync>(_: &T) {}
/// let c = prometheus::IntCounter::new("n", "h").unwrap();
/// shared(&c);
/// ```
pub mod t_c12_local_counter_not_sync {}

/// C12: a local histogram cannot be shared between threads.
/// ```compile_fail,E0277
/// fn shared<T: Sync>(_: &T) {}
/// let h = prometheus::Histogram::with_opts(prometheus::HistogramOpts::new("n", "h")).unwrap();
/// shared(&h.local());
/// ```
pub mod w_c12_local_histogram_not_sync {}
/// ```no_run
/// fn shared<T: Sync>(_: &T) {}
/// let h = prometheus::Histogram::with_opts(prometheus::HistogramOpts::new("n", "h")).unwrap();
/// shared(&h);
/// ```
pub mod t_c12_local_histogram_not_sync {}

/// C12: a local histogram vector cannot be shared between threads.
/// ```compile_fail,E0277
/// fn shared<T: Sync>(_: &T) {}
/// let v = prometheus::HistogramVec::new(prometheus::HistogramOpts::new("n", "h"), &["a"]).unwrap();
/// shared(&v.local());
/// ```
pub mod w_c12_local_histogram_vec_not_sync {}
/// ```no_run
/// fn shared<T: Sync>(_: &T) {}
/// let v = prometheus::HistogramVec::new(prometheus::HistogramOpts::new("n", "h"), &["a"]).unwrap();
/// shared(&v);
/// ```
pub mod t_c12_local_histogram_vec_not_sync {}

/// C12: a local counter vector cannot be shared between threads.
/// ```compile_fail,E0277
/// fn shared<T: Sync>(_: &T) {}
/// let v = prometheus::IntCounterVec::new(prometheus::Opts::new("n", "h"), &["a"]).unwrap();
/// shared(&v.local());
/// ```
pub mod w_c12_local_counter_vec_not_sync {}
/// ```no_run
/// fn shared<T: Sync>(_: &T) {}
/// let v = prometheus::IntCounterVec::new(prometheus::Opts::new("n", "h"), &["a"]).unwrap();
/// shared(&v);
/// ```
pub mod t_c12_local_counter_vec_not_sync {}

/// C18: a histogram timer records at most once — `observe_duration` consumes the timer.
/// ```compile_fail,E0382
/// let h = prometheus::Histogram::with_opts(prometheus::HistogramOpts::new("n", "h")).unwrap();
/// let t = h.start_timer();
/// t.observe_duration();
/// t.observe_duration();
/// ```
pub mod w_c18_timer_observe_consumes {}
/// ```no_run
/// let h = prometheus::Histogram::with_opts(prometheus::HistogramOpts::new("n", "h")).unwrap();
/// let t = h.start_timer();
/// t.observe_duration();
/// ```
pub mod t_c18_timer_observe_consumes {}

/// C18: a discarded timer cannot record afterwards — `stop_and_discard` consumes the timer.
/// ```compile_fail,E0382
/// let h = prometheus::Histogram::with_opts(prometheus::HistogramOpts::new("n", "h")).unwrap();
/// let t = h.start_timer();
/// t.stop_and_discard();
/// t.stop_and_record();
/// ```
pub mod w_c18_timer_discard_consumes {}
/// ```no_run
/// let h = prometheus::Histogram::with_opts(prometheus::HistogramOpts::new("n", "h")).unwrap();
/// let t = h.start_timer();
/// t.stop_and_discard();
/// ```
pub mod t_c18_timer_discard_consumes {}

/// C18: the same for the timer of a local histogram.
/// ```compile_fail,E0382
/// let h = prometheus::Histogram::with_opts(prometheus::HistogramOpts::new("n", "h")).unwrap();
/// let l = h.local();
/// let t = l.start_timer();
/// t.stop_and_record();
/// t.observe_duration();
/// ```
pub mod w_c18_local_timer_consumes {}
/// ```no_run
/// let h = prometheus::Histogram::with_opts(prometheus::HistogramOpts::new("n", "h")).unwrap();
/// let l = h.local();
/// let t = l.start_timer();
/// t.stop_and_record();
/// ```
pub mod t_c18_local_timer_consumes {}
