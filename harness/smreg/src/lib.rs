// Hand-written harness for C19.S7: one invocation of every register_static_*_vec! macro and of both auto_flush_from! forms.
// Never executed: only the expansions are analysed (MIR of the functions below).
#![allow(dead_code, non_camel_case_types, non_snake_case, unused_imports, clippy::all)]
use prometheus::local::*;
use prometheus::*;
use prometheus_static_metric::*;

make_static_metric! {
    pub struct SC: Counter { "a" => { p, q } }
    pub struct SIC: IntCounter { "a" => { p, q } }
    pub struct SG: Gauge { "a" => { p, q } }
    pub struct SIG: IntGauge { "a" => { p, q } }
    pub struct SH: Histogram { "a" => { p, q } }
}

pub fn r_counter(name: &str, help: &str, labels: &[&str]) -> Result<SC> {
    register_static_counter_vec!(SC, name, help, labels)
}
pub fn r_int_counter(name: &str, help: &str, labels: &[&str]) -> Result<SIC> {
    register_static_int_counter_vec!(SIC, name, help, labels)
}
pub fn r_gauge(name: &str, help: &str, labels: &[&str]) -> Result<SG> {
    register_static_gauge_vec!(SG, name, help, labels)
}
pub fn r_int_gauge(name: &str, help: &str, labels: &[&str]) -> Result<SIG> {
    register_static_int_gauge_vec!(SIG, name, help, labels)
}
pub fn r_histogram(name: &str, help: &str, labels: &[&str]) -> Result<SH> {
    register_static_histogram_vec!(SH, name, help, labels)
}
pub fn r_histogram_buckets(name: &str, help: &str, labels: &[&str], buckets: Vec<f64>) -> Result<SH> {
    register_static_histogram_vec!(SH, name, help, labels, buckets)
}

make_auto_flush_static_metric! {
    pub label_enum L { p, q }
    pub struct AC: LocalIntCounter { "a" => L }
    pub struct AH: LocalHistogram { "a" => L }
}

lazy_static::lazy_static! {
    pub static ref CVEC: IntCounterVec = IntCounterVec::new(Opts::new("c", "h"), &["a"]).unwrap();
    pub static ref HVEC: HistogramVec = HistogramVec::new(HistogramOpts::new("hh", "h"), &["a"]).unwrap();
}

pub const FLUSH: std::time::Duration = std::time::Duration::from_millis(1234);

pub fn af_counter() -> AC {
    auto_flush_from!(CVEC, AC)
}
pub fn af_counter_dur() -> AC {
    auto_flush_from!(CVEC, AC, FLUSH)
}
pub fn af_histogram() -> AH {
    auto_flush_from!(HVEC, AH)
}
pub fn af_histogram_dur() -> AH {
    auto_flush_from!(HVEC, AH, FLUSH)
}
