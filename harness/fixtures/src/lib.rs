//! Positive controls: deliberately broken code on which the zero-count rules must fire on every run
//! (a rule that matches nothing passes vacuously forever).  Never executed.
#![allow(dead_code, clippy::all)]
use std::collections::HashMap;
use std::sync::atomic::{AtomicU64, Ordering};
use std::time::Instant;

pub struct Cell64 {
    inner: AtomicU64,
}

impl Cell64 {
    /// non-atomic read-modify-write (control for C01.R4 / C11.R4)
    pub fn bad_inc(&self, d: u64) {
        let cur = self.inner.load(Ordering::Relaxed);
        self.inner.store(cur + d, Ordering::Relaxed);
    }

    /// a proper RMW (must NOT be flagged)
    pub fn good_inc(&self, d: u64) {
        self.inner.fetch_add(d, Ordering::Relaxed);
    }
}

/// unordered iteration reaching an order-sensitive sink without a sort (control for C07.R1 / C15.R2)
pub fn bad_order(m: &HashMap<String, String>) -> Vec<String> {
    let mut out = Vec::new();
    for (k, _) in m.iter() {
        out.push(k.clone());
    }
    out
}

/// the same, sanitised by a sort (must classify as `sorted`)
pub fn good_order(m: &HashMap<String, String>) -> Vec<String> {
    let mut out = Vec::new();
    for (k, _) in m.iter() {
        out.push(k.clone());
    }
    out.sort();
    out
}

/// order-insensitive use (must classify as `insensitive`)
pub fn count_only(m: &HashMap<String, String>) -> usize {
    m.keys().len()
}

#[derive(Debug)]
pub struct Error;

/// reachable panic sites in a fallible API (control for C17.R1)
pub fn bad_fallible(v: &[u64], s: &str, o: Option<u64>) -> Result<u64, Error> {
    let a = o.unwrap();
    let b = v[3];
    let (h, _) = s.split_at(1);
    Ok(a + b + h.len() as u64)
}

/// an unwrap discharged by a dominating is_some test (must be auto-discharged)
pub fn guarded(o: Option<u64>) -> Result<u64, Error> {
    if o.is_some() {
        return Ok(o.unwrap());
    }
    Err(Error)
}

/// leak (control for C12.L10) and Instant subtraction (control for C18.T7)
pub fn leak_and_subtract(v: Vec<u8>, a: Instant, b: Instant) -> u128 {
    std::mem::forget(v);
    a.duration_since(b).as_nanos()
}

/// a single-threaded cell made shareable by hand (control for C12.L12 / C18.T10: no manual Send/Sync impls)
pub struct LocalThing(std::cell::Cell<u64>);
unsafe impl Sync for LocalThing {}

/// a constant that still mentions a type parameter: the fact extractor must not try to evaluate it (regression control for a driver ICE)
pub fn generic_layout<T>() -> (usize, usize) {
    (std::mem::size_of::<T>(), std::mem::align_of::<T>())
}
